package main

// C05 at statement level (Corr/C05.v Module Stmt, Model/CachePlans.v): the composed twins --
// ProjectionPlan or AggregatePlan with the ExecuteCtx, FinalOrderPlan / FinalLimitPlan stacked
// as Optimizer.buildFinalPlan does -- against the FOUR drains of one statement: Next until nil
// and Batch until empty, each with the field cache on and off.
//
// The statement is observed AFTER BuildPlan: field names, field trees, the scan node's filter,
// the AggregatePlan's GROUP BY expressions / non-aggregate fields / aggregate arguments, field
// types, the node kinds of the plan; ORDER BY and LIMIT as parsed; what the scan reads (pairs for
// cursor scans, listed keys present or not for point reads).

import (
	"fmt"
	"strings"

	kvql "github.com/c4pt0r/kvql"
)

// c5lVal: a column by content.  Scalars as Model/Order.v's compare* switches see them; a list
// (or nil) as the canonical text of Model/SelectPlans.conv_val, computed on the Coq side (VL).
func c5lVal(c any) string {
	switch c.(type) {
	case []byte, string, bool, int64, int, int32, float64:
		return c03w2Val(c)
	}
	return "VL " + coqCanon(c)
}

func c5lObs(res runResult) string {
	if res.Panic != "" {
		return "QPanic"
	}
	if res.Err != nil {
		o := coqObs(nil, res.Err, "")
		return "(QErr" + strings.TrimPrefix(strings.TrimSuffix(o, ")"), "(OErr") + ")"
	}
	p := make([]string, len(res.Rows))
	for i, row := range res.Rows {
		c := make([]string, len(row))
		for j, col := range row {
			c[j] = "(" + c5lVal(col) + ")"
		}
		p[i] = coqList(c)
	}
	return "(QRows " + coqList(p) + ")"
}

// c5lUnits: what the scan node reads, in order (c05vUnits for any parent plan)
func c5lUnits(child kvql.Plan, st [][2]string) []c05vUnit {
	var units []c05vUnit
	if mg, ok := child.(*kvql.MultiGetPlan); ok {
		have := map[string]string{}
		for _, kv := range st {
			have[kv[0]] = kv[1]
		}
		for _, k := range mg.Keys {
			v, ok := have[k]
			units = append(units, c05vUnit{[2]string{k, v}, ok})
		}
		return units
	}
	for _, kv := range st {
		units = append(units, c05vUnit{kv, true})
	}
	return units
}

// c5lStmtTerm: the CStmt case of one statement, or "" when a part is outside the twins
// (`select *`, a scan node without a filter, an aggregate field outside Spec/Group.v's aexpr, a
// tree the printer does not take).  why: the bucket counted for an excluded statement.
func c5lStmtTerm(qa string, st [][2]string, B int, rowOn, rowOff, batOn, batOff runResult) (term, planText, why string) {
	kvql.PlanBatchSize, kvql.EnableFieldCache = B, true
	plan, err := kvql.NewOptimizer(qa).BuildPlan(newStore(st))
	if err != nil || plan == nil {
		return "", "", "rejected"
	}
	parts := &c03w2Parts{}
	shape, ok := c03w2Walk(plan, parts)
	planText = strings.Join(parts.kinds, " <- ")
	if !ok {
		return "", planText, "plan_kind"
	}
	var child kvql.Plan
	var fields []kvql.Expression
	gs, ks, args, aggr := "[]", "[]", "[]", "None"
	switch {
	case parts.agg != nil:
		child, fields = parts.agg.ChildPlan, parts.agg.Fields
		var oka bool
		gs, ks, args, aggr, oka = c03w2AggTerms(parts.agg)
		if !oka {
			return "", planText, "aggregate_field_outside_aexpr"
		}
	case parts.proj != nil:
		if parts.proj.AllFields {
			return "", planText, "select_star"
		}
		child, fields = parts.proj.ChildPlan, parts.proj.Fields
	default:
		return "", planText, "plan_kind"
	}
	wexpr, _ := c05ScanFilter(child)
	if wexpr == nil {
		return "", planText, "scan_kind"
	}
	wt, okw := coqExpr(wexpr)
	ft, okf := c05CoqExprs(fields)
	if !okw || !okf {
		return "", planText, "tree"
	}
	order, limit := "None", "None"
	stmt, err := kvql.NewParser(qa).Parse()
	if err != nil {
		return "", planText, "rejected"
	}
	sel, oks := stmt.(*kvql.SelectStmt)
	if !oks {
		return "", planText, "rejected"
	}
	if sel.Order != nil {
		os, oko := c03w2Orders(sel.Order.Orders)
		if !oko {
			return "", planText, "tree"
		}
		order = "(Some " + os + ")"
	}
	if sel.Limit != nil {
		if sel.Limit.Start < 0 || sel.Limit.Count < 0 {
			return "", planText, "limit"
		}
		limit = fmt.Sprintf("(Some (%d, %d))", sel.Limit.Start, sel.Limit.Count)
	}
	types := make([]string, len(parts.types))
	for i, t := range parts.types {
		types[i] = c03w2TypeCtor[t]
	}
	term = fmt.Sprintf("CStmt %d %s %s %s %s %s %s %s %s %s %s %s %s %s %s %s %s", B, coqStrList(parts.names), ft, wt,
		gs, ks, args, aggr, coqList(types), order, limit, shape, c05vSlots(c5lUnits(child, st)),
		c5lObs(rowOn), c5lObs(rowOff), c5lObs(batOn), c5lObs(batOff))
	return term, planText, ""
}

type c5lReplay struct {
	Kind   string      `json:"kind"`
	Tag    string      `json:"shape,omitempty"`
	Query  string      `json:"query"`
	Store  [][2]string `json:"store"`
	Path   string      `json:"access_path,omitempty"`
	B      int         `json:"batch_size"`
	K      int         `json:"rejected_prefix"`
	Plan   string      `json:"plan,omitempty"`
	RowOn  string      `json:"row_cache_on,omitempty"`
	RowOff string      `json:"row_cache_off,omitempty"`
	BatOn  string      `json:"batch_cache_on,omitempty"`
	BatOff string      `json:"batch_cache_off,omitempty"`
	What   string      `json:"what,omitempty"`
}

// c5lStmtCase emits the CStmt case of one combination (called by combo for ORDER BY / LIMIT /
// GROUP BY statements; the four runs are combo's).  The Go side judges cache on = cache off for
// these runs as well (combo's V1); here only the twin is added.
func (cr *c05Run) c5lStmtCase(qy *c05Query, qa string, st [][2]string, path string, B, k int,
	rowOn, rowOff, batOn, batOff runResult) {
	e := cr.e
	term, planText, why := c5lStmtTerm(qa, st, B, rowOn, rowOff, batOn, batOff)
	if term == "" {
		e.count("c5l:excluded:" + why)
		e.m.OutOfModel++
		return
	}
	rp := c5lReplay{Kind: "statement (composed twins with the cache switch)", Tag: qy.tag, Query: qa, Store: st, Path: path, B: B, K: k,
		Plan: planText, RowOn: c05Short(c05Outcome(rowOn)), RowOff: c05Short(c05Outcome(rowOff)),
		BatOn: c05Short(c05Outcome(batOn)), BatOff: c05Short(c05Outcome(batOff)),
		What: "code 1: a composed twin (Model/CachePlans.v) and the implementation differ in one of the four runs; code 5: cache on differs from cache off inside the premises of cache_invisible_aggregate_row/_batch"}
	nontrivial := len(rowOff.Rows) > 0 && strings.Contains(qy.where+qy.suffix, "{")
	e.add(term, rp, nontrivial)
	e.count("c5l:twin")
	e.count("c5l:plan=" + planText)
	e.count("c5l:kind=" + qy.kind)
	if rowOff.Err != nil || batOff.Err != nil {
		e.count("c5l:exec_error")
	}
}

// c5lMixedAggregateCases: a select field that holds an aggregate call NEXT TO a field name (or
// any term that depends on the pair): `sum(n) + n`.  AggregatePlan.next / batch evaluate such a
// field once per group (execGroupExpr: ctx.Clear(), Execute on the pair that opened the group;
// before fix 110650a on the nil pair with the context the LAST scanned pair had left, so that the
// cache was visible).  Outside the twins (Spec/Group.v's aexpr has no names); judged directly:
// cache on = cache off, per iteration mode.
func (cr *c05Run) c5lMixedAggregateCases() {
	e := cr.e
	st := [][2]string{{"k00", "1"}, {"k01", "5"}, {"k02", "2"}, {"k03", "7"}, {"k04", "5"}}
	stmts := []string{
		"select int(value) as n, sum(n) + n as t where key != 'zzzz' group by n",
		"select int(value) as n, sum(n) as s, max(n) - n as d where n > 0 group by n",
		"select strlen(value) as l, int(value) as n, count(1) + sum(n) * l as t where n >= 0 group by l, n",
		"select int(value) as n, sum(n) + 1 as t where key != 'zzzz' group by n",
	}
	for _, q := range stmts {
		for _, B := range []int{1, 2, 32} {
			for _, batch := range []bool{false, true} {
				on, off := runQuery(q, newStore(st), batch, B, true), runQuery(q, newStore(st), batch, B, false)
				if off.BuildErr {
					e.count("c5l:mixed_aggregate_field:rejected")
					continue
				}
				rp := c5lReplay{Kind: "aggregate select field with a pair-dependent term (direct verdict)", Query: q, Store: st, B: B}
				if batch {
					rp.BatOn, rp.BatOff = c05Short(c05Outcome(on)), c05Short(c05Outcome(off))
				} else {
					rp.RowOn, rp.RowOff = c05Short(c05Outcome(on)), c05Short(c05Outcome(off))
				}
				idx := e.add(c05vOld(c05Trivial), rp, false)
				e.count("c5l:mixed_aggregate_field")
				if c05Outcome(on) != c05Outcome(off) {
					rp.What = "switching the field cache changes the result: a field name beside an aggregate call is evaluated after the scan, on no pair"
					e.fail(idx, "switching the field cache changes the result of an aggregate select field that also uses a field name ("+c05Mode(batch, B)+")",
						"C05/cache-visible/aggregate-field-with-pair-term", rp)
				}
			}
		}
	}
}
