package main

// Common parts of the correspondence harness: reference storage (sorted map, snapshot
// cursors, call log, fault injection), seeded PRNG, statement runner, canonicaliser,
// Gallina printer, shard/meta writers.

import (
	"bytes"
	"context"
	"encoding/json"
	"errors"
	"fmt"
	"io"
	"math"
	"os"
	"path/filepath"
	"sort"
	"strings"

	kvql "github.com/c4pt0r/kvql"
)

// ---------------------------------------------------------------- PRNG (splitmix64)

type rng struct{ s uint64 }

// newRng: the seed is mixed first, so that neighbouring seeds give unrelated streams (with the
// plain splitmix increment, seed n+1 would be seed n shifted by one draw).
func newRng(seed uint64) *rng {
	z := seed + 0x632BE59BD9B4E019
	z = (z ^ (z >> 30)) * 0xBF58476D1CE4E5B9
	z = (z ^ (z >> 27)) * 0x94D049BB133111EB
	return &rng{s: z ^ (z >> 31)}
}
func (r *rng) next() uint64 {
	r.s += 0x9E3779B97F4A7C15
	z := r.s
	z = (z ^ (z >> 30)) * 0xBF58476D1CE4E5B9
	z = (z ^ (z >> 27)) * 0x94D049BB133111EB
	return z ^ (z >> 31)
}
func (r *rng) intn(n int) int {
	if n <= 0 {
		return 0
	}
	return int(r.next() % uint64(n))
}
func (r *rng) chance(num, den int) bool { return r.intn(den) < num }
func pick[T any](r *rng, xs []T) T      { return xs[r.intn(len(xs))] }

// ---------------------------------------------------------------- reference storage

type call struct {
	Op  string // Get Put BatchPut Delete BatchDelete Cursor Seek Next
	Key string // key argument, or key returned by Next ("" with Nil=true at the end)
	Nil bool   // Next returned nil / Get returned nil
	Arg []kvql.KVPair
	Ks  [][]byte
}

var errInjected = errors.New("injected storage fault")

// the VALUE of an injected fault varies: an ordinary error, and values a storage layer really
// returns when a connection drops (io.EOF must not be taken for the end of the data)
type injectedFault struct{ inner error }

func (f injectedFault) Error() string   { return "injected storage fault: " + f.inner.Error() }
func (f injectedFault) Unwrap() error   { return f.inner }
func (f injectedFault) Is(t error) bool { return t == errInjected }

var faultValues = []error{errInjected, io.EOF, io.ErrUnexpectedEOF, injectedFault{io.EOF}, context.Canceled}

func isInjected(err error) bool {
	if err == nil {
		return false
	}
	for _, f := range faultValues {
		if errors.Is(err, f) {
			return true
		}
	}
	return false
}

type refStore struct {
	data     map[string][]byte
	log      []call
	faultAt  int   // index into log at which the call fails; -1 = never
	faultErr error // the error value of the failing call (nil = errInjected)
	live     bool
}

func newStore(kvs [][2]string) *refStore {
	s := &refStore{data: map[string][]byte{}, faultAt: -1}
	for _, kv := range kvs {
		s.data[kv[0]] = []byte(kv[1])
	}
	return s
}

func (s *refStore) clone() *refStore {
	n := &refStore{data: map[string][]byte{}, faultAt: -1, live: s.live}
	for k, v := range s.data {
		n.data[k] = append([]byte(nil), v...)
	}
	return n
}

func (s *refStore) fault() error {
	if s.faultErr != nil {
		return s.faultErr
	}
	return errInjected
}

func (s *refStore) sortedKeys() []string {
	ks := make([]string, 0, len(s.data))
	for k := range s.data {
		ks = append(ks, k)
	}
	sort.Strings(ks)
	return ks
}

func (s *refStore) pairs() [][2]string {
	ks := s.sortedKeys()
	out := make([][2]string, len(ks))
	for i, k := range ks {
		out[i] = [2]string{k, string(s.data[k])}
	}
	return out
}

// record appends to the log and reports whether this call must fail.
func (s *refStore) record(c call) bool {
	idx := len(s.log)
	s.log = append(s.log, c)
	return idx == s.faultAt
}

func (s *refStore) Get(key []byte) ([]byte, error) {
	v, ok := s.data[string(key)]
	if s.record(call{Op: "Get", Key: string(key), Nil: !ok}) {
		return nil, s.fault()
	}
	if !ok {
		return nil, nil
	}
	return append([]byte{}, v...), nil
}
func (s *refStore) Put(key, value []byte) error {
	if s.record(call{Op: "Put", Key: string(key), Arg: []kvql.KVPair{{Key: key, Value: value}}}) {
		return s.fault()
	}
	s.data[string(key)] = append([]byte{}, value...)
	return nil
}
func (s *refStore) BatchPut(kvs []kvql.KVPair) error {
	cp := make([]kvql.KVPair, len(kvs))
	for i, kv := range kvs {
		cp[i] = kvql.KVPair{Key: append([]byte{}, kv.Key...), Value: append([]byte{}, kv.Value...)}
	}
	if s.record(call{Op: "BatchPut", Arg: cp}) {
		return s.fault()
	}
	for _, kv := range cp {
		s.data[string(kv.Key)] = kv.Value
	}
	return nil
}
func (s *refStore) Delete(key []byte) error {
	if s.record(call{Op: "Delete", Key: string(key)}) {
		return s.fault()
	}
	delete(s.data, string(key))
	return nil
}
func (s *refStore) BatchDelete(keys [][]byte) error {
	cp := make([][]byte, len(keys))
	for i, k := range keys {
		cp[i] = append([]byte{}, k...)
	}
	if s.record(call{Op: "BatchDelete", Ks: cp}) {
		return s.fault()
	}
	for _, k := range cp {
		delete(s.data, string(k))
	}
	return nil
}

type refCursor struct {
	s    *refStore
	keys []string
	vals [][]byte
	pos  int
}

func (s *refStore) Cursor() (kvql.Cursor, error) {
	if s.record(call{Op: "Cursor"}) {
		return nil, s.fault()
	}
	c := &refCursor{s: s}
	c.keys = s.sortedKeys()
	for _, k := range c.keys {
		c.vals = append(c.vals, append([]byte{}, s.data[k]...))
	}
	return c, nil
}
func (c *refCursor) Seek(prefix []byte) error {
	if c.s.record(call{Op: "Seek", Key: string(prefix)}) {
		return c.s.fault()
	}
	c.pos = sort.SearchStrings(c.keys, string(prefix))
	return nil
}
func (c *refCursor) Next() ([]byte, []byte, error) {
	if c.s.live {
		// live variant (only used to show that C11 needs snapshot cursors)
		for c.pos < len(c.keys) {
			if _, ok := c.s.data[c.keys[c.pos]]; ok {
				break
			}
			c.pos++
		}
	}
	if c.pos >= len(c.keys) {
		if c.s.record(call{Op: "Next", Nil: true}) {
			return nil, nil, c.s.fault()
		}
		return nil, nil, nil
	}
	k, v := c.keys[c.pos], c.vals[c.pos]
	if c.s.record(call{Op: "Next", Key: k}) {
		return nil, nil, c.s.fault()
	}
	c.pos++
	return []byte(k), append([]byte{}, v...), nil
}

func isWrite(op string) bool {
	return op == "Put" || op == "BatchPut" || op == "Delete" || op == "BatchDelete"
}

// ---------------------------------------------------------------- running statements

type runResult struct {
	Rows     [][]kvql.Column
	BatchLen []int
	Err      error
	BuildErr bool // error came from BuildPlan
	Panic    string
	Fields   []string
}

// errClass maps an outcome to the small enum the correspondence compares.
func errClass(err error) string {
	if err == nil {
		return "ok"
	}
	if isInjected(err) {
		return "storage"
	}
	var se *kvql.SyntaxError
	if errors.As(err, &se) {
		return "syntax"
	}
	var ee *kvql.ExecuteError
	if errors.As(err, &ee) {
		return "exec"
	}
	return "other"
}

func errPos(err error) int {
	var se *kvql.SyntaxError
	if errors.As(err, &se) {
		return se.Pos
	}
	var ee *kvql.ExecuteError
	if errors.As(err, &ee) {
		return ee.Pos
	}
	return -2
}

const maxPolls = 100000

// runQuery builds and drains a statement.  batch=false: Next until nil; batch=true: Batch
// until an empty batch (with ctx.Clear() between batches, like the README / memkv example).
func runQuery(q string, st kvql.Storage, batch bool, B int, cache bool) (res runResult) {
	defer func() {
		if r := recover(); r != nil {
			res.Panic = fmt.Sprint(r)
		}
	}()
	kvql.PlanBatchSize = B
	kvql.EnableFieldCache = cache
	opt := kvql.NewOptimizer(q)
	plan, err := opt.BuildPlan(st)
	if err != nil {
		res.Err = err
		res.BuildErr = true
		return
	}
	res.Fields = plan.FieldNameList()
	return drainPlan(plan, batch, res)
}

func drainPlan(plan kvql.FinalPlan, batch bool, res runResult) (out runResult) {
	out = res
	defer func() {
		if r := recover(); r != nil {
			out.Panic = fmt.Sprint(r)
		}
	}()
	ctx := kvql.NewExecuteCtx()
	for i := 0; i < maxPolls; i++ {
		if batch {
			rows, err := plan.Batch(ctx)
			if err != nil {
				out.Err = err
				return
			}
			if len(rows) == 0 {
				return
			}
			out.BatchLen = append(out.BatchLen, len(rows))
			out.Rows = append(out.Rows, rows...)
			ctx.Clear()
		} else {
			row, err := plan.Next(ctx)
			if err != nil {
				out.Err = err
				return
			}
			if row == nil {
				return
			}
			out.Rows = append(out.Rows, row)
		}
	}
	out.Panic = "TIMEOUT: plan did not finish"
	return
}

// ---------------------------------------------------------------- canonical values

// canonCol renders a column by content: text as bytes (string and []byte identified),
// numbers by kind and value (floats by their bits), lists and JSON structurally.
func canonCol(c any) string {
	switch v := c.(type) {
	case nil:
		return "nil"
	case []byte:
		return "s:" + string(v)
	case string:
		return "s:" + v
	case bool:
		if v {
			return "b:true"
		}
		return "b:false"
	case int:
		return fmt.Sprintf("i:%d", v)
	case int8, int16, int32, int64, uint, uint8, uint16, uint32, uint64:
		return fmt.Sprintf("i:%d", v)
	case float32:
		return fmt.Sprintf("f:%016x", math.Float64bits(float64(v)))
	case float64:
		return fmt.Sprintf("f:%016x", math.Float64bits(v))
	case []any:
		p := make([]string, len(v))
		for i, x := range v {
			p[i] = canonCol(x)
		}
		return "l:[" + strings.Join(p, ",") + "]"
	case []string:
		p := make([]string, len(v))
		for i, x := range v {
			p[i] = canonCol(x)
		}
		return "l:[" + strings.Join(p, ",") + "]"
	case []int64:
		p := make([]string, len(v))
		for i, x := range v {
			p[i] = canonCol(x)
		}
		return "l:[" + strings.Join(p, ",") + "]"
	case []float64:
		p := make([]string, len(v))
		for i, x := range v {
			p[i] = canonCol(x)
		}
		return "l:[" + strings.Join(p, ",") + "]"
	case kvql.JSON:
		return canonMap(map[string]any(v))
	case map[string]any:
		return canonMap(v)
	default:
		return fmt.Sprintf("?%T:%v", c, c)
	}
}

func canonMap(m map[string]any) string {
	ks := make([]string, 0, len(m))
	for k := range m {
		ks = append(ks, k)
	}
	sort.Strings(ks)
	p := make([]string, len(ks))
	for i, k := range ks {
		p[i] = fmt.Sprintf("%q:%s", k, canonCol(m[k]))
	}
	return "j:{" + strings.Join(p, ",") + "}"
}

func canonRow(r []kvql.Column) string {
	p := make([]string, len(r))
	for i, c := range r {
		p[i] = canonCol(c)
	}
	return strings.Join(p, "\x1f")
}

func canonRows(rs [][]kvql.Column) []string {
	out := make([]string, len(rs))
	for i, r := range rs {
		out[i] = canonRow(r)
	}
	return out
}

// ---------------------------------------------------------------- Gallina printer

// coqStr renders bytes as a Coq string term.  Printable ASCII uses a literal; anything else
// goes through [bsn] (list of byte codes), defined in Base/Bytes.v.
func coqStr(b string) string {
	plain := true
	for i := 0; i < len(b); i++ {
		if b[i] < 0x20 || b[i] > 0x7e {
			plain = false
			break
		}
	}
	if plain {
		return "\"" + strings.ReplaceAll(b, "\"", "\"\"") + "\""
	}
	p := make([]string, len(b))
	for i := 0; i < len(b); i++ {
		p[i] = fmt.Sprint(int(b[i]))
	}
	return "(bsn [" + strings.Join(p, ";") + "])"
}

func coqList(items []string) string { return "[" + strings.Join(items, "; ") + "]" }

func coqNatList(xs []int) string {
	p := make([]string, len(xs))
	for i, x := range xs {
		p[i] = fmt.Sprint(x)
	}
	return coqList(p)
}

func coqNatListList(xss [][]int) string {
	p := make([]string, len(xss))
	for i, xs := range xss {
		p[i] = coqNatList(xs)
	}
	return coqList(p)
}

func coqBool(b bool) string {
	if b {
		return "true"
	}
	return "false"
}

func coqOptStr(b []byte) string {
	if b == nil {
		return "None"
	}
	return "(Some " + coqStr(string(b)) + ")"
}

func coqPairs(kvs [][2]string) string {
	p := make([]string, len(kvs))
	for i, kv := range kvs {
		p[i] = "(" + coqStr(kv[0]) + ", " + coqStr(kv[1]) + ")"
	}
	return coqList(p)
}

func coqStrList(xs []string) string {
	p := make([]string, len(xs))
	for i, x := range xs {
		p[i] = coqStr(x)
	}
	return coqList(p)
}

// ---------------------------------------------------------------- shards and meta

type implFail struct {
	Case   int    `json:"case"`
	What   string `json:"what"`
	Replay any    `json:"replay"`
	Sig    string `json:"sig"` // signature matched against known_findings.json
}

type meta struct {
	Property     string         `json:"property"`
	Cases        int            `json:"cases"`
	Distinct     int            `json:"distinct_nontrivial"`
	Rule         string         `json:"rule"`
	Dist         map[string]int `json:"distribution"`
	Samples      []any          `json:"samples"`
	ImplFails    []implFail     `json:"impl_fails"`
	Shards       []string       `json:"shards"`
	Exhaustive   bool           `json:"exhaustive"`
	OutOfModel   int            `json:"out_of_model"`
	CaseReplay   []any          `json:"-"`
	Notes        []string       `json:"notes"`
	ShardOffsets []int          `json:"shard_offsets"`
}

type emitter struct {
	dir      string
	prop     string
	header   string // Coq header: imports
	caseType string
	perShard int
	cases    []string
	replays  []any
	seen     map[string]bool
	m        meta
}

func newEmitter(dir, prop, header string, perShard int) *emitter {
	os.MkdirAll(dir, 0o755)
	return &emitter{dir: dir, prop: prop, header: header, perShard: perShard,
		seen: map[string]bool{}, m: meta{Property: prop, Dist: map[string]int{}, ImplFails: []implFail{}}}
}

// add registers one case: its Gallina term, a JSON-able replay description, whether it is
// non-trivial by the property's rule.  Duplicate terms are counted once in Distinct.
func (e *emitter) add(term string, replay any, nontrivial bool) int {
	idx := len(e.cases)
	e.cases = append(e.cases, term)
	e.replays = append(e.replays, replay)
	if nontrivial && !e.seen[term] {
		e.seen[term] = true
		e.m.Distinct++
	}
	if len(e.m.Samples) < 5 || (idx%997 == 0 && len(e.m.Samples) < 12) {
		e.m.Samples = append(e.m.Samples, replay)
	}
	return idx
}

func (e *emitter) count(key string) { e.m.Dist[key]++ }

func (e *emitter) fail(caseIdx int, what, sig string, replay any) {
	e.m.ImplFails = append(e.m.ImplFails, implFail{Case: caseIdx, What: what, Sig: sig, Replay: replay})
}

func (e *emitter) flush() error {
	e.m.Cases = len(e.cases)
	for start, n := 0, 0; start < len(e.cases) || n == 0; n++ {
		end := start + e.perShard
		if end > len(e.cases) {
			end = len(e.cases)
		}
		name := fmt.Sprintf("cases_%03d.v", n)
		var b bytes.Buffer
		b.WriteString(e.header)
		b.WriteString("\nDefinition cases : list case := [\n")
		for i := start; i < end; i++ {
			b.WriteString("  ")
			b.WriteString(e.cases[i])
			if i+1 < end {
				b.WriteString(";")
			}
			b.WriteString("\n")
		}
		b.WriteString("].\nDefinition M := Eval vm_compute in mismatches cases.\nPrint M.\n")
		if err := os.WriteFile(filepath.Join(e.dir, name), b.Bytes(), 0o644); err != nil {
			return err
		}
		e.m.Shards = append(e.m.Shards, name)
		e.m.ShardOffsets = append(e.m.ShardOffsets, start)
		start = end
		if start >= len(e.cases) {
			break
		}
	}
	mj, _ := json.MarshalIndent(e.m, "", " ")
	if err := os.WriteFile(filepath.Join(e.dir, "meta.json"), mj, 0o644); err != nil {
		return err
	}
	rj, _ := json.Marshal(e.replays)
	return os.WriteFile(filepath.Join(e.dir, "replays.json"), rj, 0o644)
}
