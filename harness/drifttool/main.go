// drifttool <dir> : prints, as JSON, a normalised hash of every top-level declaration of the
// non-test Go files of <dir> (comments and formatting stripped: the declaration is re-printed
// from its AST by go/printer).  lib/vcheck.py compares the output with lib/drift_baseline.json
// (the hashes of the tree the twins were last validated against).  A changed hash is NOT an
// alarm; it deepens the comparison of the properties anchored in the changed file
// (DESIGN.md section 2.2, rule 5).
package main

import (
	"bytes"
	"crypto/sha256"
	"encoding/hex"
	"encoding/json"
	"fmt"
	"go/ast"
	"go/parser"
	"go/printer"
	"go/token"
	"os"
	"path/filepath"
	"sort"
	"strings"
)

func recvName(fd *ast.FuncDecl) string {
	if fd.Recv == nil || len(fd.Recv.List) == 0 {
		return ""
	}
	t := fd.Recv.List[0].Type
	for {
		switch x := t.(type) {
		case *ast.StarExpr:
			t = x.X
			continue
		case *ast.IndexExpr:
			t = x.X
			continue
		case *ast.Ident:
			return x.Name + "."
		}
		return "?."
	}
}

func declNames(gd *ast.GenDecl) string {
	var names []string
	for _, s := range gd.Specs {
		switch x := s.(type) {
		case *ast.ValueSpec:
			for _, n := range x.Names {
				names = append(names, n.Name)
			}
		case *ast.TypeSpec:
			names = append(names, x.Name.Name)
		case *ast.ImportSpec:
			names = append(names, "import")
		}
	}
	if len(names) > 4 {
		names = append(names[:4], "...")
	}
	return gd.Tok.String() + " " + strings.Join(names, ",")
}

func main() {
	if len(os.Args) != 2 {
		fmt.Fprintln(os.Stderr, "usage: drifttool <dir>")
		os.Exit(2)
	}
	files, _ := filepath.Glob(filepath.Join(os.Args[1], "*.go"))
	sort.Strings(files)
	out := map[string]map[string]string{}
	for _, f := range files {
		if strings.HasSuffix(f, "_test.go") {
			continue
		}
		fset := token.NewFileSet()
		af, err := parser.ParseFile(fset, f, nil, 0) // no comments
		base := filepath.Base(f)
		out[base] = map[string]string{}
		if err != nil {
			out[base]["<parse error>"] = err.Error()
			continue
		}
		seen := map[string]int{}
		for _, d := range af.Decls {
			var name string
			switch x := d.(type) {
			case *ast.FuncDecl:
				name = "func " + recvName(x) + x.Name.Name
			case *ast.GenDecl:
				name = declNames(x)
			}
			seen[name]++
			if seen[name] > 1 {
				name = fmt.Sprintf("%s#%d", name, seen[name])
			}
			var buf bytes.Buffer
			cfg := printer.Config{Mode: printer.RawFormat, Tabwidth: 1}
			cfg.Fprint(&buf, fset, d)
			norm := strings.Join(strings.Fields(buf.String()), " ")
			h := sha256.Sum256([]byte(norm))
			out[base][name] = hex.EncodeToString(h[:8])
		}
	}
	enc := json.NewEncoder(os.Stdout)
	enc.SetIndent("", " ")
	enc.Encode(out)
}
