package main

// Typed expression generator and the observation printer shared by the evaluator-level
// properties (C01, C03, C04, C05, C10, C14).

import (
	"errors"
	"fmt"
	"math"
	"strings"

	kvql "github.com/c4pt0r/kvql"
)

type gty int

const (
	gStr gty = iota
	gInt
	gFlt
	gBool
	gList
)

type egen struct {
	r        *rng
	strLits  []string
	intLits  []string
	fltLits  []string
	rowDep   bool // may refer to key / value
	noFloat  bool
	noFuncs  bool
	coreOnly bool // only the documented core of C01 (no lists / indexing)
}

func newEgen(r *rng) *egen {
	return &egen{r: r,
		strLits: []string{"", "a", "ab", "b", "ka", "12", "2.5", "x,y", "A", ","},
		intLits: []string{"0", "1", "2", "3", "7", "10", "100"},
		fltLits: []string{"0.5", "1.5", "2.0", "0.25", "10.0"},
		rowDep:  true}
}

func (g *egen) lit(t gty) string {
	switch t {
	case gStr:
		return q(pick(g.r, g.strLits))
	case gInt:
		return pick(g.r, g.intLits)
	case gFlt:
		return pick(g.r, g.fltLits)
	case gBool:
		return pick(g.r, []string{"true", "false"})
	}
	return "list(1,2)"
}

func (g *egen) gen(t gty, d int) string {
	r := g.r
	if d <= 0 {
		if t == gStr && g.rowDep && r.chance(1, 2) {
			return pick(r, []string{"key", "value"})
		}
		if t == gBool {
			// Boolean leaves must be comparisons: `true & P` is not accepted by the checker
			return fmt.Sprintf("%s = %s", g.gen(gStr, 0), g.lit(gStr))
		}
		if t == gList {
			return pick(r, []string{"split(value, ',')", "list(1, 2, 3)", "int_list(1, 2)", "float_list(0.5, 2)", "split('a,b', ',')"})
		}
		return g.lit(t)
	}
	sub := func(tt gty) string { return g.gen(tt, d-1) }
	par := func(s string) string { return "(" + s + ")" }
	switch t {
	case gStr:
		n := 9
		if g.noFuncs {
			n = 2
		}
		switch r.intn(n) {
		case 0:
			return sub(gStr)
		case 1:
			return par(sub(gStr) + " + " + sub(gStr))
		case 2:
			return "upper(" + sub(gStr) + ")"
		case 3:
			return "lower(" + sub(gStr) + ")"
		case 4:
			return "str(" + sub(gInt) + ")"
		case 5:
			return fmt.Sprintf("substr(%s, %s, %s)", sub(gStr), pick(r, []string{"0", "1", "2"}), pick(r, []string{"0", "1", "2", "3", "10"}))
		case 6:
			if g.coreOnly {
				return sub(gStr)
			}
			return fmt.Sprintf("join(%s, %s, %s)", g.lit(gStr), sub(gStr), sub(pick(r, []gty{gStr, gInt})))
		case 7:
			if g.coreOnly {
				return sub(gStr)
			}
			return fmt.Sprintf("split(%s, %s)[%s]", sub(gStr), pick(r, []string{"','", "'a'", "'ab'"}), pick(r, []string{"0", "1", "2"}))
		default:
			return sub(gStr)
		}
	case gInt:
		n := 8
		if g.noFuncs {
			n = 4
		}
		switch r.intn(n) {
		case 0:
			return par(sub(gInt) + " + " + sub(gInt))
		case 1:
			return par(sub(gInt) + " - " + sub(gInt))
		case 2:
			return par(sub(gInt) + " * " + sub(gInt))
		case 3:
			return par(sub(gInt) + " / " + pick(r, []string{"1", "2", "3", "7"}))
		case 4:
			return "int(" + sub(gStr) + ")"
		case 5:
			return "strlen(" + sub(gStr) + ")"
		case 6:
			if g.coreOnly {
				return "int(" + sub(gStr) + ")"
			}
			return "len(" + sub(gList) + ")"
		default:
			return sub(gInt)
		}
	case gFlt:
		if g.noFloat {
			return g.gen(gInt, d)
		}
		switch r.intn(6) {
		case 0:
			return par(sub(gFlt) + " + " + sub(gFlt))
		case 1:
			return par(sub(gFlt) + " * " + sub(gFlt))
		case 2:
			return par(sub(gFlt) + " - " + sub(gInt))
		case 3:
			return "float(" + sub(gStr) + ")"
		case 4:
			return par(sub(gInt) + " / " + pick(r, []string{"2.0", "0.5", "4.0"}))
		default:
			return sub(gFlt)
		}
	case gBool:
		num := gInt
		if !g.noFloat && r.chance(1, 4) {
			num = gFlt
		}
		switch r.intn(14) {
		case 0:
			return par(sub(gStr) + " " + pick(r, []string{"=", "!=", ">", ">=", "<", "<=", "^="}) + " " + sub(gStr))
		case 1:
			return par(sub(num) + " " + pick(r, []string{">", ">=", "<", "<="}) + " " + sub(num))
		case 2:
			// = / != on numbers: integers, floats and mixed pairs (a mixed pair is compared as
			// float64, like > >= < <=)
			return par(sub(num) + " " + pick(r, []string{"=", "!="}) + " " + sub(pick(r, []gty{gInt, num})))
		case 3:
			return par(sub(gBool) + " " + pick(r, []string{"&", "|", "and", "or"}) + " " + sub(gBool))
		case 4:
			return "!" + par(sub(gBool))
		case 5:
			return par(fmt.Sprintf("%s in (%s, %s)", sub(gStr), sub(gStr), g.lit(gStr)))
		case 6:
			return par(fmt.Sprintf("%s in (%s, %s, %s)", sub(gInt), g.lit(gInt), sub(gInt), g.lit(gInt)))
		case 7:
			return par(fmt.Sprintf("%s between %s and %s", sub(gStr), g.lit(gStr), g.lit(gStr)))
		case 8:
			return par(fmt.Sprintf("%s between %s and %s", sub(gInt), g.lit(gInt), g.lit(gInt)))
		case 9:
			if g.noFuncs {
				return par(sub(gStr) + " = " + sub(gStr))
			}
			return "is_int(" + sub(gStr) + ")"
		case 10:
			if g.noFuncs {
				return par(sub(gStr) + " = " + sub(gStr))
			}
			return "is_float(" + sub(gStr) + ")"
		case 11:
			if g.coreOnly || g.noFuncs {
				return par(sub(gStr) + " ^= " + g.lit(gStr))
			}
			return par(fmt.Sprintf("%s in %s", sub(gStr), sub(gList)))
		default:
			return par(sub(gStr) + " " + pick(r, []string{"=", "<", ">="}) + " " + g.lit(gStr))
		}
	case gList:
		switch r.intn(5) {
		case 0:
			return fmt.Sprintf("split(%s, %s)", sub(gStr), pick(r, []string{"','", "'a'"}))
		case 1:
			return fmt.Sprintf("list(%s, %s)", sub(gInt), sub(gInt))
		case 2:
			return fmt.Sprintf("int_list(%s, %s)", sub(gInt), sub(gStr))
		case 3:
			if g.noFloat {
				return fmt.Sprintf("ilist(%s)", sub(gInt))
			}
			return fmt.Sprintf("float_list(%s, %s)", sub(gFlt), sub(gInt))
		default:
			return g.gen(gList, 0)
		}
	}
	return g.lit(t)
}

// ------------------------------------------------------------------ observations

// fcodeTerm renders a float as the Gallina term (fcode sign mantissa exponent) whose value
// equals Base/Flt.pf_bits of the same binary64 number.
func fcodeTerm(f float64) string {
	bits := math.Float64bits(f)
	sign := bits>>63 == 1
	exp := int((bits >> 52) & 0x7ff)
	frac := bits & ((1 << 52) - 1)
	switch {
	case exp == 0x7ff && frac != 0:
		return "5%Z"
	case exp == 0x7ff:
		if sign {
			return "(-3)%Z"
		}
		return "3%Z"
	case exp == 0 && frac == 0:
		if sign {
			return "(-1)%Z"
		}
		return "0%Z"
	}
	m := frac
	e := -1074
	if exp != 0 {
		m = frac | (1 << 52)
		e = exp - 1075
	}
	// SpecFloat keeps denormal mantissas as they are
	return fmt.Sprintf("(fcode %s %d (%d))", coqBool(sign), m, e)
}

func coqCanon(c any) string {
	switch v := c.(type) {
	case nil:
		return "CNil"
	case []byte:
		return "(CText " + coqStr(string(v)) + ")"
	case string:
		return "(CText " + coqStr(v) + ")"
	case bool:
		return "(CBool " + coqBool(v) + ")"
	case int:
		return fmt.Sprintf("(CInt (%d))", v)
	case int64:
		return fmt.Sprintf("(CInt (%d))", v)
	case int32:
		return fmt.Sprintf("(CInt (%d))", v)
	case float64:
		return "(CFlt " + fcodeTerm(v) + ")"
	case float32:
		return "(CFlt " + fcodeTerm(float64(v)) + ")"
	case []string:
		p := make([]string, len(v))
		for i, x := range v {
			p[i] = coqCanon(x)
		}
		return "(CList " + coqList(p) + ")"
	case []int64:
		p := make([]string, len(v))
		for i, x := range v {
			p[i] = coqCanon(x)
		}
		return "(CList " + coqList(p) + ")"
	case []float64:
		p := make([]string, len(v))
		for i, x := range v {
			p[i] = coqCanon(x)
		}
		return "(CList " + coqList(p) + ")"
	case []any:
		p := make([]string, len(v))
		for i, x := range v {
			p[i] = coqCanon(x)
		}
		return "(CList " + coqList(p) + ")"
	default:
		return "COther"
	}
}

// coqObs renders an outcome: OVal canon | OErr class pos | OPanic
func coqObs(val any, err error, pn string) string {
	if pn != "" {
		return "OPanic"
	}
	if err != nil {
		var se *kvql.SyntaxError
		var ee *kvql.ExecuteError
		switch {
		case errors.As(err, &ee):
			return fmt.Sprintf("(OErr 1 (%d))", ee.Pos)
		case errors.As(err, &se):
			return fmt.Sprintf("(OErr 2 (%d))", se.Pos)
		default:
			return "(OErr 3 0)"
		}
	}
	return "(OVal " + coqCanon(val) + ")"
}

func execRow(e kvql.Expression, k, v string, cache bool) (val any, err error, pn string) {
	defer func() {
		if r := recover(); r != nil {
			pn = fmt.Sprint(r)
		}
	}()
	kvql.EnableFieldCache = cache
	ctx := kvql.NewExecuteCtx()
	val, err = e.Execute(kvql.NewKVPStr(k, v), ctx)
	return
}

func execBatch(e kvql.Expression, kvs [][2]string, cache bool) (vals []any, err error, pn string) {
	defer func() {
		if r := recover(); r != nil {
			pn = fmt.Sprint(r)
		}
	}()
	kvql.EnableFieldCache = cache
	ctx := kvql.NewExecuteCtx()
	chunk := make([]kvql.KVPair, len(kvs))
	for i, kv := range kvs {
		chunk[i] = kvql.NewKVPStr(kv[0], kv[1])
	}
	vals, err = e.ExecuteBatch(chunk, ctx)
	return
}

// parseField parses `select <expr> where key != ”` and returns the checked (not folded)
// field expression.
func parseField(expr string) (kvql.Expression, error) {
	stmt, err := kvql.NewParser("select " + expr + " where key != 'zzzz'").Parse()
	if err != nil {
		return nil, err
	}
	sel, ok := stmt.(*kvql.SelectStmt)
	if !ok || len(sel.Fields) != 1 {
		return nil, errors.New("not a single-field select")
	}
	return sel.Fields[0], nil
}

func parseWhere(pred string) (*kvql.SelectStmt, error) {
	stmt, err := kvql.NewParser("select * where " + pred).Parse()
	if err != nil {
		return nil, err
	}
	sel, ok := stmt.(*kvql.SelectStmt)
	if !ok {
		return nil, errors.New("not a select")
	}
	return sel, nil
}

var evalPairs = [][2]string{
	{"a", "12"}, {"ab", "-3"}, {"b", "2.5"}, {"ka", "abc"}, {"kb", ""}, {"kc", "a,b,c"},
	{"", "7"}, {"x,y", "007"}, {"12", "x"}, {"A", "1e2"}, {"zz", "922337203685477"},
}

func coqObsRows(kvs [][2]string, obs []string) string {
	p := make([]string, len(kvs))
	for i, kv := range kvs {
		p[i] = fmt.Sprintf("(%s, %s, %s)", coqStr(kv[0]), coqStr(kv[1]), obs[i])
	}
	return coqList(p)
}

func hasAny(s string, subs ...string) bool {
	for _, x := range subs {
		if strings.Contains(s, x) {
			return true
		}
	}
	return false
}
