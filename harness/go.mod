module kvqlcorr

go 1.21.1

toolchain go1.23.5

require github.com/c4pt0r/kvql v0.0.0

require github.com/beorn7/perks v1.0.1 // indirect

replace github.com/c4pt0r/kvql => /repo
