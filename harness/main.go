package main

// kvqlcorr <property> --tier quick|thorough --seed N --out DIR [--replay FILE]
// Generates the property's cases, runs the implementation (/repo, linked through the
// replace directive in go.mod) on them and writes DIR/cases_NNN.v (inputs + observed
// behaviour as Gallina terms), DIR/meta.json (measured distribution, samples, direct
// verdicts on the implementation) and DIR/replays.json.

import (
	"flag"
	"fmt"
	"os"
	"sort"
)

type runCtx struct {
	tier   string
	seed   uint64
	out    string
	replay string
	search bool // widened search for a failing input (after a broken proof / correspondence)
}

func (c *runCtx) thorough() bool { return c.tier == "thorough" }

var registry = map[string]func(*runCtx) error{}

func main() {
	if len(os.Args) < 2 {
		names := []string{}
		for k := range registry {
			names = append(names, k)
		}
		sort.Strings(names)
		fmt.Println("usage: kvqlcorr <property> [flags]; properties:", names)
		os.Exit(2)
	}
	prop := os.Args[1]
	fs := flag.NewFlagSet(prop, flag.ExitOnError)
	c := &runCtx{}
	fs.StringVar(&c.tier, "tier", "quick", "quick|thorough")
	fs.Uint64Var(&c.seed, "seed", 1, "seed")
	fs.StringVar(&c.out, "out", "", "output directory")
	fs.StringVar(&c.replay, "replay", "", "replay file")
	fs.BoolVar(&c.search, "search", false, "widened failing-input search")
	fs.Parse(os.Args[2:])
	f, ok := registry[prop]
	if !ok {
		fmt.Fprintln(os.Stderr, "unknown property", prop)
		os.Exit(2)
	}
	if c.out == "" {
		fmt.Fprintln(os.Stderr, "--out required")
		os.Exit(2)
	}
	if err := f(c); err != nil {
		fmt.Fprintln(os.Stderr, "harness error:", err)
		os.Exit(3)
	}
}
