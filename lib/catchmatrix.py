#!/usr/bin/env python3
"""Prints the seeded-change / check matrix (markdown) from seeded/*/meta.json."""
import glob, json, os, re
ROOT = os.path.dirname(os.path.dirname(os.path.abspath(__file__)))
rows = []
for d in sorted(glob.glob(os.path.join(ROOT, "seeded", "*"))):
    mp = os.path.join(d, "meta.json")
    if not os.path.exists(mp):
        continue
    m = json.load(open(mp))
    first = ""
    note = (m.get("needs_to_manifest") or "")
    for line in note.splitlines():
        line = line.strip().lstrip("#").strip()
        if len(line) > 25:
            first = line
            break
    caught = [c for c, r in m.get("checks", {}).items() if r.get("caught")]
    missed = [c for c, r in m.get("checks", {}).items() if not r.get("caught")]
    rows.append((os.path.basename(d), m.get("property"), first[:110], ", ".join(caught) or "-", ", ".join(missed) or "-", m.get("strengthened", "")))
print("| seeded change | breaks | what it is (from the author's notes) | caught by | run but silent | check strengthened for it |")
print("|---|---|---|---|---|---|")
for r in rows:
    print("| %s | %s | %s | %s | %s | %s |" % r)
