#!/usr/bin/env python3
"""Drift sentinel (DESIGN.md section 2.2 rule 5).

lib/drift_baseline.json holds a normalised hash (go/ast, comments and formatting stripped) of
every top-level declaration of /repo's non-test Go files, taken from the tree the twins were
last validated against.  A changed hash is NOT an alarm: `./check Cxx` only runs further
generator passes (other seeds) for the properties anchored in a changed file, so that an edit
is met with a deeper comparison exactly where it happened.

  python3 lib/drift.py            # list declarations of /repo that differ from the baseline
  python3 lib/drift.py --rebase   # rewrite the baseline from /repo (after a fix: commit)
"""
import json, os, subprocess, sys

ROOT = os.path.dirname(os.path.dirname(os.path.abspath(__file__)))
BASELINE = os.path.join(ROOT, "lib", "drift_baseline.json")
# glue every statement passes through: an edit there concerns every property
GLUE = ["plan.go", "optimizer.go", "kv.go", "expression.go", "statement.go", "walker.go", "utils.go"]


def tool(env=None):
    exe = os.path.join(ROOT, "run", "bin", "drifttool")
    src = os.path.join(ROOT, "harness", "drifttool", "main.go")
    if not os.path.exists(exe) or os.path.getmtime(exe) < os.path.getmtime(src):
        os.makedirs(os.path.dirname(exe), exist_ok=True)
        e = dict(env or os.environ, GOFLAGS="-mod=mod", GOPROXY="off", GOSUMDB="off", GOTOOLCHAIN="local", CGO_ENABLED="0")
        subprocess.run(["go", "build", "-o", exe, "./drifttool"], cwd=os.path.join(ROOT, "harness"), env=e, check=True,
                       stdout=subprocess.PIPE, stderr=subprocess.STDOUT)
    return exe


def current(repo):
    out = subprocess.run([tool(), repo], stdout=subprocess.PIPE, check=True, text=True).stdout
    return json.loads(out)


def changed(repo):
    """{file: [declaration names that differ from / are missing from / are new against the baseline]}"""
    if not os.path.exists(BASELINE):
        return {}
    base = json.load(open(BASELINE))
    cur = current(repo)
    res = {}
    for f in sorted(set(base) | set(cur)):
        b, c = base.get(f, {}), cur.get(f, {})
        names = sorted(n for n in set(b) | set(c) if b.get(n) != c.get(n))
        if names:
            res[f] = names
    return res


def anchored_files(pid):
    files = []
    for l in open(os.path.join(ROOT, "properties.jsonl")):
        d = json.loads(l)
        if d["id"] == pid:
            files = list(d.get("anchors", {}).get("files", []))
    return sorted(set(files) | set(GLUE))


def drift_for(pid, repo):
    """declarations changed in the files the property is anchored in (plus the shared glue)"""
    ch = changed(repo)
    rel = set(anchored_files(pid))
    return {f: n for f, n in ch.items() if f in rel}


if __name__ == "__main__":
    if "--rebase" in sys.argv:
        json.dump(current("/repo"), open(BASELINE, "w"), indent=1, sort_keys=True)
        print("baseline rewritten from /repo")
    else:
        print(json.dumps(changed(os.environ.get("VERIF_REPO", "/repo")), indent=1))
