#!/usr/bin/env python3
"""Regenerates MANIFEST.json from props/*.json (claimed properties) and props/not_applicable.json."""
import glob, json, os
ROOT = os.path.dirname(os.path.dirname(os.path.abspath(__file__)))
ids = [json.loads(l)["id"] for l in open(os.path.join(ROOT, "properties.jsonl"))]
claimed = {}
enabled = open(os.path.join(ROOT, "props", "ENABLED")).read().split()
for f in sorted(glob.glob(os.path.join(ROOT, "props", "C*.json"))):
    p = json.load(open(f))
    if p["id"] in enabled:   # props/ENABLED lists the checks that are complete and registered
        claimed[p["id"]] = p
na = json.load(open(os.path.join(ROOT, "props", "not_applicable.json")))
checks = []
for i in ids:
    if i not in claimed: continue
    p = claimed[i]
    checks.append(dict(property_id=i, quick_cmd="./check %s --tier quick" % i,
        thorough_cmd="./check %s --tier thorough" % i, evidence_file="evidence/%s.json" % i,
        replay_cmd_template="./check %s --replay {path}" % i, engine="rocq-twin",
        level_claimed=dict(category=p["level"], text=p["level_text"], design_ref=p.get("design_ref", "DESIGN.md §5")),
        level_note=p["level_note"], technique=p["technique"]))
man = dict(version=1,
  setup_cmd="bash -c 'export GOFLAGS=-mod=mod GOPROXY=off GOSUMDB=off GOTOOLCHAIN=local; coq/build.sh $(for p in $(cat props/ENABLED); do echo Properties/$p.vo Corr/$p.vo; done) && cp /repo/go.sum harness/go.sum && (cd harness && go build -o ../run/bin/kvqlcorr .)'",
  hooks=dict(guard="verif", enable="none needed: everything observed is public API of /repo (plan fields, Lexer.Split, Parser.Parse, Expression.Execute/ExecuteBatch, SyntaxError) and the harness's own Storage; the tag is reserved",
             baseline_off_cmd="cd /repo && GOFLAGS=-mod=mod GOPROXY=off GOSUMDB=off GOTOOLCHAIN=local go test -vet=off -count=1 ./...",
             source_commits=[], add_only=True),
  engines=[dict(name="rocq-twin", path="coq/ + harness/ + check", serves_properties=[c["property_id"] for c in checks],
                kind_free_text="machine-checked Rocq (Coq 8.16) theorems over a hand-written Gallina twin; twin tied to /repo by a correspondence check evaluated with vm_compute in coqc on inputs run on the implementation")],
  checks=checks,
  notes="See DESIGN.md. known_findings.json lists recorded findings and fixed: entries.",
  not_applicable=[dict(property_id=i, reason=na.get(i, "check not built yet in this phase; see DESIGN.md §5 for the planned theorem")) for i in ids if i not in claimed])
json.dump(man, open(os.path.join(ROOT, "MANIFEST.json"), "w"), indent=1)
print("claimed:", [c["property_id"] for c in checks])
