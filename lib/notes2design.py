#!/usr/bin/env python3
"""Rewrites section 12 of DESIGN.md from notes/*.md (the paragraphs the model-extension agents of the
fifth wave wrote for their own increments), so that DESIGN.md is self-contained."""
import glob, os, re
ROOT = os.path.dirname(os.path.dirname(os.path.abspath(__file__)))
p = os.path.join(ROOT, "DESIGN.md")
s = open(p).read()
head = "## 12. Fifth-wave increments in the words of their authors (from notes/*.md)"
i = s.find(head)
if i >= 0:
    s = s[:i].rstrip() + "\n"
out = [s.rstrip(), "", head, "",
       "Each subsection is the design paragraph an agent wrote for its own increment (twin, theorems, how the",
       "correspondence ties it to /repo, what stays unproved). §9 has the one-paragraph summaries.", ""]
for f in sorted(glob.glob(os.path.join(ROOT, "notes", "*.md"))):
    body = open(f).read().strip()
    body = re.sub(r"^# ", "### ", body, count=1, flags=re.M)     # first heading becomes a subsection
    body = re.sub(r"^## ", "#### ", body, flags=re.M)
    out += ["<!-- from notes/%s -->" % os.path.basename(f), body, ""]
open(p, "w").write("\n".join(out) + "\n")
print("section 12 rewritten from", len(glob.glob(os.path.join(ROOT, "notes", "*.md"))), "notes")
