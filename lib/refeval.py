#!/usr/bin/env python3
"""lib/refeval.py <tag> <patch.diff> [<notes.md>] [check ...]
A BEHAVIOUR-PRESERVING change (refactor) of kvql: applies the patch in a scratch worktree of
/repo HEAD, requires build + the pinned tests to pass, runs the given checks (default: all
registered) against the patched tree and records which stayed silent.  A VIOLATION here is a
false alarm of the machinery (or the change is not behaviour-preserving after all: look at the
replay).  Stored under /verif/seeded/harmless/<tag>/."""
import json, os, re, shutil, subprocess, sys
from concurrent.futures import ThreadPoolExecutor
ROOT = os.path.dirname(os.path.dirname(os.path.abspath(__file__)))
tag, patch = sys.argv[1], sys.argv[2]
rest = sys.argv[3:]
notes = rest[0] if rest and rest[0].endswith(".md") else None
checks = [c for c in rest if re.fullmatch(r"C\d\d", c)] or open(os.path.join(ROOT, "props", "ENABLED")).read().split()
wt = "/tmp/refev-%s" % tag
env = dict(os.environ, GOFLAGS="-mod=mod", GOPROXY="off", GOSUMDB="off", GOTOOLCHAIN="local")
def sh(cmd, cwd=None, extra=None):
    e = dict(env); e.update(extra or {})
    p = subprocess.run(cmd, cwd=cwd, env=e, shell=isinstance(cmd, str), stdout=subprocess.PIPE, stderr=subprocess.STDOUT, text=True)
    return p.returncode, p.stdout
subprocess.run(["git", "-C", "/repo", "worktree", "remove", "--force", wt], capture_output=True)
sh(["git", "-C", "/repo", "worktree", "add", "-q", "--detach", wt, "HEAD"])
meta = dict(tag=tag, kind="behaviour-preserving", checks={})
_old = os.path.join(ROOT, "seeded", "harmless", tag, "meta.json")
if os.path.exists(_old) and len(checks) < 19:
    meta["checks"] = json.load(open(_old)).get("checks", {})   # partial re-run: keep the other verdicts
meta["repo_head"] = subprocess.run(["git", "-C", "/repo", "rev-parse", "--short", "HEAD"], capture_output=True, text=True).stdout.strip()
try:
    rc, out = sh(["git", "apply", patch], cwd=wt)
    meta["applies_to_current_head"] = rc == 0
    if rc == 0:
        rc, out = sh("go build ./... && go test -vet=off -count=1 ./...", cwd=wt)
        meta["builds_and_tests_pass"] = rc == 0 and "FAIL" not in out
        def one(c):
            rc, out = sh(["./check", c, "--tier", "quick"], cwd=ROOT, extra={"VERIF_REPO": wt, "VERIF_EVIDENCE_DIR": "/tmp/seed-evidence"})
            lines = out.strip().splitlines()
            viol = [l for l in lines if l.startswith("VIOLATION")]
            why = [l for l in lines if l.startswith("#")]
            return c, dict(silent=(rc == 0 and not viol), last=lines[-1] if lines else "", why=(why[-1] if why and viol else ""))
        if meta["builds_and_tests_pass"]:
            with ThreadPoolExecutor(3) as ex:
                for c, r in ex.map(one, checks):
                    meta["checks"][c] = r
    else:
        meta["apply_error"] = out[-300:]
finally:
    subprocess.run(["git", "-C", "/repo", "worktree", "remove", "--force", wt], capture_output=True)
    mine = re.sub(r"\W", "_", wt)
    for d in os.listdir(os.path.join(ROOT, "run")):
        if mine in d:
            shutil.rmtree(os.path.join(ROOT, "run", d), ignore_errors=True)
    bind = os.path.join(ROOT, "run", "bin")
    for d in os.listdir(bind) if os.path.isdir(bind) else []:
        if mine in d:
            os.remove(os.path.join(bind, d))
dst = os.path.join(ROOT, "seeded", "harmless", tag)
os.makedirs(dst, exist_ok=True)
if os.path.abspath(patch) != os.path.abspath(os.path.join(dst, "patch.diff")):
    shutil.copy(patch, os.path.join(dst, "patch.diff"))
if notes and os.path.exists(notes):
    meta["author_notes"] = open(notes).read()[:2500]
json.dump(meta, open(os.path.join(dst, "meta.json"), "w"), indent=1)
loud = [c for c, r in meta["checks"].items() if not r["silent"]]
print(tag, "applies", meta.get("applies_to_current_head"), "tests", meta.get("builds_and_tests_pass"), "checks", len(meta["checks"]), "ALARMS", loud or "none")
