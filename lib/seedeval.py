#!/usr/bin/env python3
"""lib/seedeval.py <prop> <i> <check> [<check> ...]
Verifies the seeded change /tmp/mut-<prop>-out/patch<i>.diff + demo<i>_test.go in a scratch
worktree of /repo HEAD (clean: demo passes; patched: original tests pass, demo fails), runs the
given checks against the patched tree, and stores everything under /verif/seeded/<prop>-<i>/."""
import json, os, re, shutil, subprocess, sys
prop, i = sys.argv[1], sys.argv[2]
checks = sys.argv[3:]
rnd = os.environ.get("SEED_ROUND", "")          # "" = first round, "2" = /tmp/mut2-<prop>-out
src = "/tmp/mut%s-%s-out" % (rnd, prop)
tag = ("%s-r%s-%s" % (prop, rnd, i)) if rnd else ("%s-%s" % (prop, i))
patch = os.path.join(src, "patch%s.diff" % i)
demo = os.path.join(src, "demo%s_test.go" % i)
notes = os.path.join(src, "notes%s.md" % i)
wt = "/tmp/seedev%s-%s-%s" % (rnd, prop, i)
ROOT = os.path.dirname(os.path.dirname(os.path.abspath(__file__)))
stored = os.path.join(ROOT, "seeded", tag)
old_notes = None
if not os.path.exists(patch) and os.path.exists(os.path.join(stored, "patch.diff")):
    # the author's scratch output is gone: re-evaluate from what was stored
    shutil.copy(os.path.join(stored, "patch.diff"), "/tmp/seedev-%s.diff" % tag)
    shutil.copy(os.path.join(stored, "demo_test.go"), "/tmp/seedev-%s_test.go" % tag)
    patch, demo = "/tmp/seedev-%s.diff" % tag, "/tmp/seedev-%s_test.go" % tag
    old_notes = json.load(open(os.path.join(stored, "meta.json"))).get("needs_to_manifest")
env = dict(os.environ, GOFLAGS="-mod=mod", GOPROXY="off", GOSUMDB="off", GOTOOLCHAIN="local")
def sh(cmd, cwd=None, extra=None):
    e = dict(env); e.update(extra or {})
    p = subprocess.run(cmd, cwd=cwd, env=e, shell=isinstance(cmd, str), stdout=subprocess.PIPE, stderr=subprocess.STDOUT, text=True)
    return p.returncode, p.stdout
subprocess.run(["git", "-C", "/repo", "worktree", "remove", "--force", wt], capture_output=True)
rc, out = sh(["git", "-C", "/repo", "worktree", "add", "-q", "--detach", wt, "HEAD"])
meta = dict(property=prop, change=int(i), ran=[])
meta["repo_head"] = subprocess.run(["git", "-C", "/repo", "rev-parse", "--short", "HEAD"], capture_output=True, text=True).stdout.strip()
try:
    shutil.copy(demo, os.path.join(wt, "zz_demo_test.go"))
    rc, out = sh("go test -vet=off -count=1 ./... 2>&1 | tail -3", cwd=wt)
    meta["clean_tree_with_demo"] = "ok" if "ok" in out and "FAIL" not in out else "FAIL: " + out[-300:]
    os.remove(os.path.join(wt, "zz_demo_test.go"))
    rc, out = sh(["git", "-C", wt, "apply", patch])
    if rc != 0:
        rc, out = sh(["git", "-C", wt, "apply", "-3", patch])
    meta["applies_to_current_head"] = (rc == 0)
    if rc != 0:
        meta["apply_error"] = out[-300:]
    else:
        rc, out = sh("go build ./... 2>&1 | tail -3 && go test -vet=off -count=1 ./... 2>&1 | tail -2", cwd=wt)
        meta["patched_original_tests"] = "ok" if re.search(r"^ok", out, re.M) and "FAIL" not in out else "FAIL: " + out[-300:]
        shutil.copy(demo, os.path.join(wt, "zz_demo_test.go"))
        # run exactly the tests the demonstration file declares
        names = re.findall(r"^func (Test\w+)\(", open(os.path.join(wt, "zz_demo_test.go")).read(), re.M) or ["Demo"]
        rc, out = sh("go test -vet=off -count=1 -run '^(%s)$' . 2>&1 | tail -6" % "|".join(names), cwd=wt)
        meta["patched_demo"] = "fails (as required)" if ("FAIL" in out or "panic" in out or "fatal error" in out) else "PASSES?! " + out[-200:]
        os.remove(os.path.join(wt, "zz_demo_test.go"))
        results = {}
        for c in checks:
            rc, out = sh(["./check", c, "--tier", "quick"], cwd="/verif", extra=dict(VERIF_REPO=wt, VERIF_EVIDENCE_DIR="/tmp/seed-evidence"))
            lines = out.splitlines()
            pairs = []            # (reason, VIOLATION line)
            for n, l in enumerate(lines):
                if l.startswith("VIOLATION"):
                    pairs.append((lines[n - 1] if n and lines[n - 1].startswith("#") else "", l))
            infra = ("the Coq side of the correspondence failed to evaluate", "harness failed", "does not build", "proof obligation no longer checks", "cannot parse")
            genuine = [p for p in pairs if not any(x in p[0] for x in infra)]
            concrete = [p for p in genuine if "no-failing-input-found" not in p[1]]
            viol = [p[1] for p in (concrete or genuine)]
            why = [p[0] for p in (concrete or genuine)]
            if pairs and not genuine:
                results[c] = dict(caught=False, error="the check itself failed (infrastructure): " + pairs[0][0][:200])
            elif viol:
                results[c] = dict(caught=True, concrete_input=bool(concrete), line=viol[0], why=(why[0][:200] if why else ""))
                # keep the replay next to the seeded change
                m = re.search(r"replay=(\S+)", viol[0])
                if m and os.path.exists(m.group(1)):
                    os.makedirs("/verif/seeded/%s" % tag, exist_ok=True)
                    shutil.copy(m.group(1), "/verif/seeded/%s/replay_%s.json" % (tag, c))
            else:
                results[c] = dict(caught=False, last=out.strip().splitlines()[-1][:200] if out.strip() else "")
            meta["ran"].append("VERIF_REPO=<patched worktree> ./check %s --tier quick" % c)
        prev = {}
        if os.path.exists(os.path.join(stored, "meta.json")):
            prev = json.load(open(os.path.join(stored, "meta.json"))).get("checks", {})
        for c, r in prev.items():      # verdicts of checks not re-run now are kept
            results.setdefault(c, r)
        meta["checks"] = results
finally:
    subprocess.run(["git", "-C", "/repo", "worktree", "remove", "--force", wt], capture_output=True)
    mine = re.sub(r"\W", "_", wt)                  # only this run's scratch (other evaluations may be running)
    for d in os.listdir("/verif/run"):
        if mine in d:
            shutil.rmtree(os.path.join("/verif/run", d), ignore_errors=True)
    for d in os.listdir("/verif/run/bin") if os.path.isdir("/verif/run/bin") else []:
        if mine in d:
            os.remove(os.path.join("/verif/run/bin", d))
dst = "/verif/seeded/%s" % tag
os.makedirs(dst, exist_ok=True)
shutil.copy(patch, os.path.join(dst, "patch.diff"))
shutil.copy(demo, os.path.join(dst, "demo_test.go"))
if os.path.exists(notes):
    meta["needs_to_manifest"] = open(notes).read()[:3000]
if old_notes and "needs_to_manifest" not in meta:
    meta["needs_to_manifest"] = old_notes
notes_file = os.path.join(ROOT, "seeded", "NOTES.json")
if os.path.exists(notes_file):
    n = json.load(open(notes_file)).get(tag)
    if n:
        meta["strengthened"] = n
json.dump(meta, open(os.path.join(dst, "meta.json"), "w"), indent=1)
short = {c: ("CAUGHT" if r["caught"] else ("ERROR" if r.get("error") else "missed")) for c, r in meta.get("checks", {}).items()}
print(tag, meta.get("clean_tree_with_demo"), meta.get("applies_to_current_head"), meta.get("patched_original_tests"), meta.get("patched_demo"), short)
