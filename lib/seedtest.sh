#!/bin/bash
# lib/seedtest.sh <patch.diff> <Cxx> [<Cyy> ...]
# Applies a seeded change to a scratch worktree of /repo's HEAD, runs the given checks against
# it (quick tier, evidence redirected), prints one line per check, and removes the worktree.
set -u
patch=$(readlink -f "$1"); shift
wt=/tmp/seedwt-$$
export GOFLAGS=-mod=mod GOPROXY=off GOSUMDB=off GOTOOLCHAIN=local
git -C /repo worktree add -q --detach "$wt" HEAD || exit 2
if ! git -C "$wt" apply "$patch" 2>/tmp/seed-apply-$$.err; then
  echo "APPLY-FAILED $(head -3 /tmp/seed-apply-$$.err | tr '\n' ' ')"; git -C /repo worktree remove --force "$wt"; exit 3
fi
(cd "$wt" && go build ./... 2>&1 | head -3)
tests=$(cd "$wt" && go test -vet=off -count=1 ./... 2>&1 | tail -1)
echo "TESTS $tests"
cd /verif
for p in "$@"; do
  out=$(VERIF_REPO="$wt" VERIF_EVIDENCE_DIR=/tmp/seed-evidence ./check "$p" --tier quick 2>&1)
  if echo "$out" | grep -q "^VIOLATION"; then
    echo "$p CAUGHT $(echo "$out" | grep -m1 '^VIOLATION' | sed 's/.*replay=//') :: $(echo "$out" | grep -m1 '^#' | cut -c1-160)"
  else
    echo "$p missed :: $(echo "$out" | tail -1 | cut -c1-120)"
  fi
done
git -C /repo worktree remove --force "$wt"
rm -rf /verif/run/*_tmp_seedwt_* /verif/run/bin/kvqlcorr__tmp_seedwt_* 2>/dev/null
