#!/usr/bin/env python3
"""Regenerates the two generated tables of DESIGN.md in place: section 10 (lib/statusmd.py) and section 11
(lib/catchmatrix.py).  Each table is the first markdown table after its section heading."""
import os, re, subprocess, sys
ROOT = os.path.dirname(os.path.dirname(os.path.abspath(__file__)))
p = os.path.join(ROOT, "DESIGN.md")
s = open(p).read()
def table_of(script):
    out = subprocess.run([sys.executable, os.path.join(ROOT, "lib", script)], capture_output=True, text=True).stdout
    return "\n".join(l for l in out.splitlines() if l.startswith("|"))
def splice(s, heading, script):
    i = s.index(heading)
    m = re.compile(r"(^\|.*\n)+", re.M).search(s, i)
    return s[:m.start()] + table_of(script) + "\n" + s[m.end():]
s = splice(s, "## 10. Status per property", "statusmd.py")
s = splice(s, "## 11. Seeded changes and which checks catch them", "catchmatrix.py")
open(p, "w").write(s)
print("tables regenerated")
