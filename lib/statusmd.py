#!/usr/bin/env python3
"""Prints the per-property status table for DESIGN.md §10 from props/, evidence/ and Properties/."""
import json, os, re, glob, sys
sys.path.insert(0, os.path.dirname(os.path.abspath(__file__)))
from vcheck import strip_comments
ROOT = os.path.dirname(os.path.dirname(os.path.abspath(__file__)))
enabled = open(os.path.join(ROOT, "props", "ENABLED")).read().split()
ids = [json.loads(l)["id"] for l in open(os.path.join(ROOT, "properties.jsonl"))]
print("| property | registered | level | theorems in Properties/Cxx.v | last quick run: cases / distinct non-trivial / out of model |")
print("|---|---|---|---|---|")
for i in ids:
    pj = os.path.join(ROOT, "props", i + ".json")
    if not os.path.exists(pj):
        print("| %s | no | - | - | - |" % i); continue
    p = json.load(open(pj))
    src = os.path.join(ROOT, "coq", "Properties", i + ".v")
    thms = re.findall(r"^\s*(?:Theorem|Corollary)\s+(\w+)", strip_comments(open(src).read()), re.M) if os.path.exists(src) else []
    partial = [t for t in thms if "partial" in t]
    refuted = [t for t in thms if "refuted" in t]
    main = [t for t in thms if t not in partial and t not in refuted]
    ev = os.path.join(ROOT, "evidence", i + ".json")
    cov = json.load(open(ev))["coverage"] if os.path.exists(ev) else {}
    cell = "%d full (%s%s)" % (len(main), ", ".join(main[:6]), ", ..." if len(main) > 6 else "")
    if partial: cell += "; partial: " + ", ".join(partial)
    if refuted: cell += "; refuted witnesses: %d" % len(refuted)
    print("| %s | %s | %s | %s | %s / %s / %s |" % (i, "yes" if i in enabled else "not yet", p["level"], cell,
          cov.get("evaluations", "-"), cov.get("distinct_nontrivial", "-"), cov.get("out_of_model", "-")))
