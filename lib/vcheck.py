import argparse, concurrent.futures, fcntl, glob, json, os, re, shutil, subprocess, sys, time

ROOT = os.path.dirname(os.path.dirname(os.path.abspath(__file__)))
COQ = os.path.join(ROOT, "coq")
HARNESS = os.path.join(ROOT, "harness")
RUN = os.path.join(ROOT, "run")
REPO = "/repo"

GOENV = dict(os.environ, GOFLAGS="-mod=mod", GOPROXY="off", GOSUMDB="off", GOTOOLCHAIN="local",
             CGO_ENABLED="0")

FORBIDDEN = re.compile(r"\b(Admitted|admit|Axiom|Axioms|Parameter|Parameters|Conjecture|"
                       r"Admit\s+Obligations|bypass_check|give_up)\b|Unset\s+Guard|"
                       r"Unset\s+Positivity|Unset\s+Universe|type-in-type|impredicative-set")

REPO = os.environ.get("VERIF_REPO", REPO)  # scratch worktrees during development; registered commands use /repo


def load_cfg(pid):
    cfg = json.load(open(os.path.join(ROOT, "props", pid + ".json")))
    cfg["codes"] = {int(k): v for k, v in cfg.get("codes", {}).items()}
    return cfg


def log(*a):
    print(*a, flush=True)


def sh(cmd, cwd=None, env=None, timeout=None):
    p = subprocess.run(cmd, cwd=cwd, env=env, timeout=timeout, stdout=subprocess.PIPE,
                       stderr=subprocess.STDOUT, text=True, errors="replace")
    return p.returncode, p.stdout


class Lock:
    def __init__(self, name):
        os.makedirs(RUN, exist_ok=True)
        self.path = os.path.join(RUN, name)
    def __enter__(self):
        self.f = open(self.path, "w")
        fcntl.flock(self.f, fcntl.LOCK_EX)
    def __exit__(self, *a):
        fcntl.flock(self.f, fcntl.LOCK_UN)
        self.f.close()


def strip_comments(src):
    out, depth, i = [], 0, 0
    while i < len(src):
        if src.startswith("(*", i):
            depth += 1; i += 2
        elif src.startswith("*)", i) and depth > 0:
            depth -= 1; i += 2
        else:
            if depth == 0:
                out.append(src[i])
            i += 1
    return "".join(out)


def closure_files(pid):
    """Source files Properties/<pid>.v and Corr/<pid>.v depend on (KV modules, transitively)."""
    seen, todo = set(), [os.path.join("Properties", pid + ".v"), os.path.join("Corr", pid + ".v")]
    while todo:
        rel = todo.pop()
        path = os.path.join(COQ, rel)
        if rel in seen or not os.path.exists(path):
            continue
        seen.add(rel)
        code = strip_comments(open(path, errors="replace").read())
        for m in re.finditer(r"From\s+KV\s+Require\s+(?:(?:Import|Export)\s+)?(.*?)\.(?:\s|$)", code, re.S):
            for mod in m.group(1).split():
                todo.append(mod.replace(".", os.sep) + ".v")
    return [os.path.join(COQ, r) for r in sorted(seen)]


def forbidden_scan(files=None):
    bad = []
    for f in (files if files is not None else glob.glob(os.path.join(COQ, "**", "*.v"), recursive=True)):
        code = strip_comments(open(f, errors="replace").read())
        # string literals cannot smuggle vernacular; scan code only
        code = re.sub(r'"(?:[^"]|"")*"', '""', code)
        for m in FORBIDDEN.finditer(code):
            bad.append("%s: %s" % (os.path.relpath(f, ROOT), m.group(0)))
    return bad


def coq_build(clean=False, only=None):
    """Full .vo build (thorough tier / setup), or -- quick tier -- only the closure of the given
    targets, so that one property's check does not wait for (or fail on) files that belong to
    other properties.  Returns (ok, output)."""
    with Lock(".coqlock"):
        if clean:
            sh(["bash", "-c", "[ -f Makefile ] && make clean >/dev/null 2>&1; rm -f _CoqProject Makefile Makefile.conf .Makefile.d"], cwd=COQ)
        rc, out = sh([os.path.join(COQ, "build.sh")] + (only or []), cwd=COQ, timeout=3000)
        return rc == 0, out


def coq_target(target):
    with Lock(".coqlock"):
        rc, out = sh(["bash", "-c", "timeout 2400 make -j16 %s" % target], cwd=COQ)
        return rc == 0, out


def property_assumptions(pid, rundir):
    """Re-check Properties/<pid>.v on its own and parse the Print Assumptions output."""
    src = os.path.join(COQ, "Properties", pid + ".v")
    rc, out = sh(["timeout", "600", "coqc", "-Q", COQ, "KV", "-o", os.path.join(rundir, pid + ".vo"), src], cwd=rundir)
    code = strip_comments(open(src).read())
    theorems = re.findall(r"^\s*(?:Theorem|Corollary)\s+(\w+)", code, re.M)
    examples = re.findall(r"^\s*(?:Example|Lemma|Fact)\s+(\w+)", code, re.M)
    printed = re.findall(r"^\s*Print Assumptions\s+(\w+)", code, re.M)
    # split output into one block per Print Assumptions
    blocks, cur = [], None
    for line in out.splitlines():
        if line.startswith("Closed under the global context"):
            blocks.append([]); cur = None
        elif line.startswith("Axioms:"):
            cur = []; blocks.append(cur)
        elif cur is not None and line.strip():
            cur.append(line.rstrip())
    axioms = {}
    for name, b in zip(printed, blocks):
        axioms[name] = [l.split(":")[0].strip() for l in b if not l.startswith(" ") or ":" in l and not l.startswith("   ")]
    return dict(ok=(rc == 0 and len(blocks) == len(printed)), output=out, theorems=theorems,
                examples=examples, printed=printed, axioms=axioms)


def bin_path():
    tag = "" if REPO == "/repo" else "_" + re.sub(r"\W", "_", REPO)
    return os.path.join(RUN, "bin", "kvqlcorr" + tag)


def harness_build():
    """Rebuilds the harness against the current working tree of REPO (go.mod replace)."""
    with Lock(".golock" + os.path.basename(bin_path())):
        os.makedirs(os.path.join(RUN, "bin"), exist_ok=True)
        if REPO == "/repo":
            shutil.copyfile(os.path.join(REPO, "go.sum"), os.path.join(HARNESS, "go.sum"))
            cmd = ["go", "build", "-o", bin_path(), "."]
        else:
            mod = bin_path() + ".mod"
            open(mod, "w").write(open(os.path.join(HARNESS, "go.mod")).read().replace("=> /repo", "=> " + REPO))
            shutil.copyfile(os.path.join(REPO, "go.sum"), bin_path() + ".sum")
            cmd = ["go", "build", "-modfile=" + mod, "-o", bin_path(), "."]
        rc, out = sh(cmd, cwd=HARNESS, env=GOENV, timeout=900)
        return rc == 0, out


def run_shard(args):
    rundir, shard = args
    t0 = time.time()
    try:
        rc, out = sh(["timeout", "1500", "coqc", "-Q", COQ, "KV", "-o", os.path.join(rundir, shard[:-2] + ".vo"), shard], cwd=rundir)
    except Exception as ex:  # pragma: no cover
        return shard, None, "exception %r" % ex, time.time() - t0
    if rc != 0:
        return shard, None, out[-2000:], time.time() - t0
    m = re.search(r"M\s*=\s*(\[.*?\])\s*:\s*list", out, re.S)
    if not m:
        return shard, None, "cannot parse: " + out[-2000:], time.time() - t0
    pairs = [(int(a), int(b)) for a, b in re.findall(r"\(\s*(\d+)(?:%\w+)?\s*,\s*(\d+)(?:%\w+)?\s*\)", m.group(1))]
    if not pairs and m.group(1).strip("[] \n\t"):
        return shard, None, "cannot parse a non-empty mismatch list: " + m.group(1)[:300], time.time() - t0
    return shard, pairs, "", time.time() - t0


def run_cases(pid, tier, seed, rundir, search=False):
    """Runs the generator and the Coq side.  Returns dict with meta, mismatches, errors."""
    shutil.rmtree(rundir, ignore_errors=True)
    os.makedirs(rundir)
    cmd = [bin_path(), pid, "--tier", tier, "--seed", str(seed), "--out", rundir]
    if search:
        cmd.append("--search")
    t0 = time.time()
    rc, out = sh(cmd, cwd=rundir, env=GOENV, timeout=3000)
    gen_s = time.time() - t0
    if rc != 0:
        return dict(error="harness failed (rc=%d): %s" % (rc, out[-3000:]))
    meta = json.load(open(os.path.join(rundir, "meta.json")))
    replays = json.load(open(os.path.join(rundir, "replays.json")))
    mism, errors = [], []
    t1 = time.time()
    retry = []
    with concurrent.futures.ThreadPoolExecutor(max_workers=int(os.environ.get("VERIF_JOBS", "16"))) as ex:
        for shard, pairs, err, dt in ex.map(run_shard, [(rundir, s) for s in meta["shards"]]):
            if pairs is None and "Error" not in err:
                retry.append(shard)  # no Coq error message: killed (memory pressure / time limit on a loaded machine)
            elif pairs is None:
                errors.append("%s: %s" % (shard, err))
            else:
                off = meta["shard_offsets"][meta["shards"].index(shard)]
                mism += [(off + i, code) for i, code in pairs]
    for shard in retry:  # once more, one at a time
        shard, pairs, err, dt = run_shard((rundir, shard))
        if pairs is None:
            errors.append("%s (after one retry): %s" % (shard, err or "coqc was killed or timed out without a message"))
        else:
            off = meta["shard_offsets"][meta["shards"].index(shard)]
            mism += [(off + i, code) for i, code in pairs]
    return dict(meta=meta, replays=replays, mismatches=sorted(mism), shard_errors=errors,
                gen_s=gen_s, coq_s=time.time() - t1, harness_out=out[-2000:])


def load_known():
    p = os.path.join(ROOT, "known_findings.json")
    if not os.path.exists(p):
        return dict(findings=[], fixed=[])
    return json.load(open(p))


def write_replay(pid, tier, k, body):
    d = os.path.join(RUN, "replays")
    os.makedirs(d, exist_ok=True)
    path = os.path.join(d, "%s_%s_%d.json" % (pid, tier, k))
    json.dump(body, open(path, "w"), indent=1, default=str)
    return path


def main(argv):
    ap = argparse.ArgumentParser()
    ap.add_argument("prop")
    ap.add_argument("--tier", default=os.environ.get("VERIF_TIER") or "quick")
    ap.add_argument("--replay")
    ap.add_argument("--no-build", action="store_true", help="skip the Coq project build (debugging)")
    a = ap.parse_args(argv)
    pid, tier = a.prop, a.tier
    if tier not in ("quick", "thorough"):
        tier = "quick"
    cfg = load_cfg(pid)
    seed = int(os.environ.get("VERIF_SEED") or "1")
    t0 = time.time()
    rundir = os.path.join(RUN, pid + "_" + tier + ("" if REPO == "/repo" else "_" + re.sub(r"\W", "_", REPO)))
    os.makedirs(RUN, exist_ok=True)
    violations = []   # (what, replay_body, no_input)
    known_lines = []
    notes = []

    replay_in = None
    if a.replay:
        replay_in = json.load(open(a.replay))
        seed = int(replay_in.get("seed", seed))
        tier = replay_in.get("tier", tier)

    # ---------------------------------------------------------------- 1. proof
    proof_ok, proof_detail = True, ""
    # quick tier: the files this property depends on; thorough tier: the whole development
    forb = forbidden_scan(closure_files(pid) if tier == "quick" else None)
    if forb:
        proof_ok, proof_detail = False, "forbidden vernacular: " + "; ".join(forb[:5])
    if not a.no_build:
        closure = ["Properties/%s.vo" % pid, "Corr/%s.vo" % pid]
        if tier != "quick":
            # thorough: rebuild from clean the closure of every registered property (props/ENABLED)
            enabled = open(os.path.join(ROOT, "props", "ENABLED")).read().split()
            closure = sorted({"%s/%s.vo" % (d, q) for q in enabled + [pid] for d in ("Properties", "Corr")})
        ok, out = coq_build(clean=(tier == "thorough" and os.environ.get("VERIF_NO_CLEAN") != "1"), only=closure)
        if not ok:
            # does the failure concern this property's closure?
            ok2, out2 = coq_target("Properties/%s.vo Corr/%s.vo" % (pid, pid))
            if not ok2:
                proof_ok = False
                m = re.search(r'File "([^"]+)", line (\d+)', out2)
                proof_detail = "Coq build failed: " + (m.group(0) if m else "") + " " + out2[-600:]
            else:
                notes.append("another property's Coq files fail to build (not in this closure)")
    os.makedirs(rundir, exist_ok=True)
    pa = dict(ok=False, theorems=[], printed=[], axioms={}, examples=[], output="")
    if proof_ok:
        pa = property_assumptions(pid, rundir)
        if not pa["ok"]:
            proof_ok, proof_detail = False, "Properties/%s.v does not check: %s" % (pid, pa["output"][-600:])
    coqchk_out = None
    if proof_ok and tier == "thorough" and os.environ.get("VERIF_NO_COQCHK") != "1":
        with Lock(".coqlock"):
            rc, out = sh(["bash", "-c", "timeout 3000 coqchk -silent -o -Q . KV KV.Properties.%s 2>&1 | tail -40" % pid], cwd=COQ)
        coqchk_out = out[-3000:]
        if rc != 0 or "Fatal" in out or "Error" in out:
            proof_ok, proof_detail = False, "coqchk: " + out[-600:]

    # ---------------------------------------------------------------- 2./3. correspondence + spec verdict
    res = None
    ok, out = harness_build()
    if not ok:
        violations.append(("correspondence harness does not build against /repo: " + out[-800:],
                           dict(kind="correspondence", component="harness build", detail=out[-3000:]), True))
    else:
        res = run_cases(pid, tier, seed, rundir)
        if "error" in res:
            violations.append((res["error"][:300], dict(kind="correspondence", component="generator", detail=res["error"]), True))
            res = None

    known = load_known()
    kf = [f for f in known.get("findings", []) if f["property"] == pid]
    kf_hit = {}
    spec_viol, corr_only = [], []
    def judge(res, seed_used, rd):
        """verdict on one generator pass (the pass of the run's seed, or a further pass under another
        seed when the drift sentinel reports edits in the files the property is anchored in)"""
        extra = {} if seed_used == seed else dict(seed=seed_used, found_by="further generator pass (drift sentinel)")
        meta, replays = res["meta"], res["replays"]
        sv, co = [], []
        if res["shard_errors"]:
            violations.append(("the Coq side of the correspondence failed to evaluate: " + res["shard_errors"][0][:300],
                               dict(kind="correspondence", component="coqc on cases", detail=res["shard_errors"]), True))
        fails = {}
        for f in meta.get("impl_fails") or []:
            fails.setdefault(f["case"], f)
        codes = {k: v for k, v in res["mismatches"] if v != 99}
        res["oom_cases"] = [k for k, v in res["mismatches"] if v == 99]   # twin says: outside the model
        if replay_in is not None and "case_index" in replay_in:
            ci = replay_in["case_index"]
            fails = {k: v for k, v in fails.items() if k == ci}
            codes = {k: v for k, v in codes.items() if k == ci}
        for ci in sorted(set(fails) | set(codes)):
            code = codes.get(ci, 0)
            f = fails.get(ci)
            rep = replays[ci] if ci < len(replays) else None
            if f is not None or code >= 2:
                what = f["what"] if f else cfg.get("codes", {}).get(code, "the implementation's output violates the specification (code %d)" % code)
                sig = f["sig"] if f else "%s/code%d" % (pid, code)
                sv.append((ci, what, sig, rep, code))
            else:
                co.append((ci, code, rep))
        spec_viol.extend(sv)
        corr_only.extend(co)
        for ci, what, sig, rep, code in sv:
            hit = next((k for k in kf if k["sig"] == sig or (k.get("sig_prefix") and sig.startswith(k["sig_prefix"]))), None)
            if hit:
                kf_hit.setdefault(hit["id"], (hit, 0))
                kf_hit[hit["id"]] = (hit, kf_hit[hit["id"]][1] + 1)
            else:
                violations.append((what, dict(kind="spec-violation", case_index=ci, what=what, signature=sig,
                                              coq_code=code, input=rep, **extra), False))
        if co and not violations:
            # correspondence broken, no violating input among the cases: widen the search
            sres = run_cases(pid, tier, seed_used + 7919, rd + "_search", search=True)
            found = False
            if "error" not in sres:
                sf = {f["case"]: f for f in sres["meta"].get("impl_fails") or []}
                sc = {k: v for k, v in sres["mismatches"] if v >= 2 and v != 99}
                for ci in sorted(set(sf) | set(sc)):
                    f = sf.get(ci)
                    sig = f["sig"] if f else "%s/code%d" % (pid, sc[ci])
                    if any(k["sig"] == sig for k in kf):
                        continue
                    what = f["what"] if f else "the implementation's output violates the specification (code %d)" % sc[ci]
                    violations.append((what, dict(kind="spec-violation", found_by="widened search", case_index=ci,
                                                  seed=seed_used + 7919, search=True, what=what, signature=sig,
                                                  input=sres["replays"][ci]), False))
                    found = True
                    break
            if not found:
                ci, code, rep = co[0]
                violations.append(("model and implementation disagree on %d case(s); no input violating the property found" % len(co),
                                   dict(kind="correspondence", component=cfg.get("component", "Corr/%s.v" % pid),
                                        broken="correspondence between the Coq twin and /repo",
                                        disagreements=len(co), case_index=ci, coq_code=code, input=rep, **extra), True))

    drift, drift_passes = {}, []
    if res:
        judge(res, seed, rundir)
        # drift sentinel: declarations of the anchored files that differ from the validated baseline
        # deepen the comparison (further generator passes under other seeds); never an alarm by itself
        try:
            import drift as _drift
            drift = _drift.drift_for(pid, REPO)
        except Exception as ex:  # the sentinel must never break a check
            notes.append("drift sentinel unavailable: %r" % ex)
        n_extra = int(os.environ.get("VERIF_DRIFT_PASSES", "2"))
        if drift and tier == "quick" and not violations and replay_in is None and not a.no_build:
            for k in range(1, n_extra + 1):
                s2 = seed + 1000003 * k
                r2 = run_cases(pid, tier, s2, rundir + "_drift%d" % k)
                if "error" in r2:
                    notes.append("further pass under seed %d failed to run: %s" % (s2, r2["error"][:200]))
                    continue
                drift_passes.append(dict(seed=s2, cases=r2["meta"]["cases"]))
                judge(r2, s2, rundir + "_drift%d" % k)
                if violations:
                    break

    if not proof_ok:
        # a broken proof obligation: report a failing input if the cases exhibit one, else no-failing-input-found
        if not any(not v[2] for v in violations):
            violations.append(("proof obligation no longer checks: " + proof_detail[:300],
                               dict(kind="proof", theorem_file="coq/Properties/%s.v" % pid, detail=proof_detail), True))

    # ---------------------------------------------------------------- evidence
    wall = time.time() - t0
    for hit, n in kf_hit.values():
        known_lines.append("KNOWN-FINDING: property=%s %s (%d case(s) this run; id=%s)" % (pid, hit["what"], n, hit["id"]))
    n_obl = len(pa["printed"])
    axioms_used = sorted({ax for l in pa["axioms"].values() for ax in l})
    cov = dict(
        obligations=max(n_obl, 1),
        discharged=(n_obl if proof_ok else 0),
        checker_cmd="coq/build.sh (coq_makefile + make, full .vo) ; coqc -Q coq KV coq/Properties/%s.v%s" % (pid, " ; coqchk -silent -o KV.Properties.%s" % pid if tier == "thorough" else ""),
        theorems=pa["printed"], non_vacuity_examples=pa["examples"],
        print_assumptions={k: (v or "Closed under the global context") for k, v in pa["axioms"].items()},
        trusted_base=["Coq 8.16.1 kernel incl. its bytecode VM (vm_compute)", "axioms: " + (", ".join(axioms_used) or "none (closed under the global context)"),
                      "hand-written Gallina twin tied to /repo by the correspondence harness (harness/*.go, reference Storage, Gallina printer, Corr/%s.v)" % pid]
                     + cfg.get("trusted", []),
        evaluations=(res["meta"]["cases"] if res else 0) or 1,
        distinct_nontrivial=(res["meta"]["distinct_nontrivial"] if res else 0),
        traces_validated_against_impl=(res["meta"]["cases"] if res else 0),
        rule=(res["meta"]["rule"] if res else ""),
        samples=(res["meta"]["samples"][:6] if res else []) or ["(no cases were run)"],
        distribution=(res["meta"]["distribution"] if res else {}),
        out_of_model=((res["meta"].get("out_of_model", 0) + len(res.get("oom_cases", []))) if res else 0),
        exhaustive=bool(res and res["meta"].get("exhaustive")),
        model_vs_impl_disagreements=len(corr_only),
        spec_violations_on_impl=len(spec_viol),
        known_findings_hit=[h["id"] for h, _ in kf_hit.values()],
        proof_status=("all property theorems re-checked" if proof_ok else proof_detail[:400]),
        modelled_not_verified=cfg.get("modelled", ""),
        timing=dict(generator_s=(res or {}).get("gen_s"), coq_cases_s=(res or {}).get("coq_s")),
        notes=notes + (res["meta"].get("notes") or [] if res else []),
    )
    if coqchk_out:
        cov["coqchk"] = coqchk_out
    if drift:
        cov["drift"] = dict(changed_declarations=drift, further_passes=drift_passes,
                            note="declarations of the anchored Go files differ from lib/drift_baseline.json: not an alarm, the comparison was deepened")
        cov["evaluations"] += sum(p["cases"] for p in drift_passes)
        cov["traces_validated_against_impl"] += sum(p["cases"] for p in drift_passes)
    ev = dict(property_id=pid, tier=tier, seed=seed, level=cfg.get("level", "proof"), coverage=cov,
              assumptions=cfg.get("assumptions", []), wall_s=round(wall, 2), violations=len(violations))
    # evidence/<id>.json; redirected (VERIF_EVIDENCE_DIR) only when trying seeded changes in a scratch worktree
    evdir = os.environ.get("VERIF_EVIDENCE_DIR") or os.path.join(ROOT, "evidence")
    os.makedirs(evdir, exist_ok=True)
    if not a.replay:
        json.dump(ev, open(os.path.join(evdir, pid + ".json"), "w"), indent=1, default=str)

    # ---------------------------------------------------------------- verdict
    for l in known_lines:
        log(l)
    if violations:
        seen = set()
        k = 0
        for what, body, noinput in violations:
            sigk = body.get("signature") or body.get("kind") + body.get("component", "")
            if sigk in seen:
                continue
            seen.add(sigk)
            body.update(property=pid, tier=tier, seed=body.get("seed", seed))
            path = write_replay(pid, tier, k, body)
            k += 1
            log("# " + what.replace("\n", " ")[:400])
            log("VIOLATION property=%s replay=%s%s" % (pid, path, " no-failing-input-found" if noinput else ""))
        return 1
    log("OK property=%s tier=%s cases=%d theorems=%d wall=%.1fs" % (pid, tier, cov["evaluations"], n_obl, wall))
    return 0
